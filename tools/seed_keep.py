#!/venv/bin/python
"""seed_keep.py <seed _out dir> <name> <initially_detected: yes|no> [note]
Verifies a sub-agent's change myself (demo fails with / passes without; suite unchanged; which checks fire) and files it
under /verif/seeded/<name>/ (patch.diff, demo.py, meta.json)."""
import json, os, shutil, subprocess, sys
sys.path.insert(0, "/verif/tools")
import seed_eval

src, name, initially = sys.argv[1], sys.argv[2], sys.argv[3]
note = sys.argv[4] if len(sys.argv) > 4 else ""
patch = os.path.join(src, "patch.diff")
v = seed_eval.verify(src)
assert v.get("applies") and v.get("compiles"), v
assert v["demo_without"] == 0 and v["demo_with"] != 0, v
suite = seed_eval.suite_with_patch(patch)
assert suite and "stable_missing=0" in suite[0], suite
det = seed_eval.detect(patch)
fired = {p: fails for p, (rc, fails) in det.items() if rc == 1}
errors = {p: fails for p, (rc, fails) in det.items() if rc == 2}
meta = json.load(open(os.path.join(src, "meta.json"))) if os.path.exists(os.path.join(src, "meta.json")) else {}
prop = meta.get("property", name.split("_")[0])
dst = f"/verif/seeded/{name}"
os.makedirs(dst, exist_ok=True)
shutil.copy(patch, dst)
shutil.copy(os.path.join(src, "demo.py"), dst)
meta_out = {
    "property": prop,
    "origin": "independent sub-agent given only the property text and a scratch worktree",
    "summary": meta.get("summary"),
    "needs": meta.get("needs"),
    "files": meta.get("files"),
    "verified_by_me": {
        "ran": ["tools/seed_eval.py verify (demo in a scratch worktree, with and without the patch)",
                "tools/suite.py WORKTREE (pinned suite on HEAD + patch)", "tools/seed_eval.py detect (all quick checks on /repo + patch, then reverted)"],
        "demo_exit_without_patch": v["demo_without"], "demo_exit_with_patch": v["demo_with"],
        "suite": suite[0],
    },
    "detected_when_received": initially == "yes",
    "checks_that_fire_now": {p: [f.split(" at ")[0].replace("FAIL ", "") for f in fails[:3]] for p, fails in fired.items()},
    "analysis_errors": errors,
    "note": note,
}
json.dump(meta_out, open(os.path.join(dst, "meta.json"), "w"), indent=1, ensure_ascii=False)
print(name, "fired:", sorted(fired), "errors:", sorted(errors), suite[0])
