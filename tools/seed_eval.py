#!/venv/bin/python
"""Evaluate a candidate seeded change.
  seed_eval.py verify <dir-with-patch.diff-and-demo.py>   -> confirms: applies, suite unchanged, demo fails with / passes without
  seed_eval.py detect <patch.diff> [props...]             -> applies to /repo, runs the quick checks, reverts; prints which fire
"""
import json, os, shutil, subprocess, sys, tempfile

PY = "/venv/bin/python"


def sh(cmd, **kw):
    return subprocess.run(cmd, capture_output=True, text=True, **kw)


def verify(d):
    patch = os.path.join(d, "patch.diff")
    demo = os.path.join(d, "demo.py")
    tmp = tempfile.mkdtemp(prefix="bvseed_")
    wt = os.path.join(tmp, "wt_" + os.path.basename(tmp))
    out = {}
    try:
        subprocess.check_call(["git", "-C", "/repo", "worktree", "add", "-q", "--detach", wt, "HEAD"])
        env = dict(os.environ, PYTHONPATH=wt, PYTHONDONTWRITEBYTECODE="1")
        # run the demonstration from inside the scratch tree (some demos locate the library relative to their own path)
        os.makedirs(os.path.join(wt, "_out"), exist_ok=True)
        demo = shutil.copy(demo, os.path.join(wt, "_out", "demo.py"))
        r0 = sh([PY, demo], cwd=wt, env=env)
        out["demo_without"] = r0.returncode
        a = sh(["git", "-C", wt, "apply", patch])
        out["applies"] = a.returncode == 0
        if not out["applies"]:
            out["apply_err"] = a.stderr[-300:]
            return out
        r1 = sh([PY, demo], cwd=wt, env=env)
        out["demo_with"] = r1.returncode
        out["demo_with_tail"] = (r1.stdout + r1.stderr)[-400:]
        out["compiles"] = sh([PY, "-c", "import beyond"], cwd=wt, env=env).returncode == 0
    finally:
        subprocess.run(["git", "-C", "/repo", "worktree", "remove", "--force", wt], capture_output=True)
        shutil.rmtree(tmp, ignore_errors=True)
        subprocess.run(["git", "-C", "/repo", "worktree", "prune"], capture_output=True)
    return out


def suite_with_patch(patch):
    """Run the pinned suite on HEAD + patch (in a scratch worktree; /repo is not touched)."""
    r = sh(["/verif/tools/suite.py", "PATCH:" + os.path.abspath(patch), "-n", "6"])
    return [l.replace("commit=PATCH:" + os.path.abspath(patch), "commit=HEAD+patch") for l in r.stdout.strip().splitlines()]


def detect(patch, props=None):
    """Run the quick checks against a scratch copy of /repo/beyond with the patch applied (never /repo itself)."""
    man = json.load(open("/verif/MANIFEST.json"))
    props = props or [c["property_id"] for c in man["checks"]]
    d = tempfile.mkdtemp(prefix="bvseed_")
    res = {}
    try:
        shutil.copytree("/repo/beyond", os.path.join(d, "beyond"))
        if subprocess.run(["git", "apply", "--include=beyond/*", os.path.abspath(patch)], cwd=d, capture_output=True).returncode:
            subprocess.check_call(["patch", "-p1", "-s", "--no-backup-if-mismatch", "-i", os.path.abspath(patch)], cwd=d)
        env = dict(os.environ, BVSTATIC_REPO=d, BVSTATIC_EVIDENCE=os.path.join(d, "_ev"))

        def one(p):
            r = sh([PY, "-B", "-m", "bvstatic", p, "--tier", "quick"], cwd="/verif", env=env)
            fails = [l.strip()[:230] for l in r.stdout.splitlines() if l.strip().startswith("FAIL") or "ANALYSIS-ERROR" in l]
            return p, (r.returncode, fails)
        from concurrent.futures import ThreadPoolExecutor
        with ThreadPoolExecutor(6) as ex:
            res = dict(ex.map(one, props))
    finally:
        shutil.rmtree(d, ignore_errors=True)
    return res


if __name__ == "__main__":
    if sys.argv[1] == "verify":
        print(json.dumps(verify(sys.argv[2]), indent=1))
    elif sys.argv[1] == "suite":
        print("\n".join(suite_with_patch(sys.argv[2])))
    elif sys.argv[1] == "detect":
        res = detect(sys.argv[2], sys.argv[3:] or None)
        for p, (rc, fails) in res.items():
            if rc != 0:
                print(p, "rc=", rc)
                for f in fails[:6]:
                    print("   ", f)
        print("fired:", [p for p, (rc, _) in res.items() if rc == 1], "errors:", [p for p, (rc, _) in res.items() if rc == 2])
