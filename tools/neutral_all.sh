#!/bin/sh
# false-alarm regression: every behaviour-preserving patch under /verif/neutral must leave every check silent
cd "$(dirname "$0")/.."
for d in neutral/C* neutral2/C* neutral3/C*; do echo "== $d"; ./tools/neutral_eval.py $d "$@" 2>&1 | grep -E "ALARM|patches|rc="; done
