#!/venv/bin/python
"""wave_in.py <wave dir> <suffix> [Cxx ...] : take in the deliveries of a seed wave.
For every <dir>/Cxx/_out/{patch.diff,demo.py,meta.json} not yet filed as /verif/seeded/Cxx_<suffix>: record which checks
fire on receipt (seed_eval.detect), then verify and file it (seed_keep.py: demo fails with / passes without, suite
unchanged).  Prints one line per seed; details in <dir>/Cxx.intake.txt."""
import json, os, subprocess, sys
from concurrent.futures import ThreadPoolExecutor
sys.path.insert(0, "/verif/tools")
import seed_eval

root, suffix = sys.argv[1], sys.argv[2]
only = sys.argv[3:]


def one(pid):
    out = os.path.join(root, pid, "_out")
    name = f"{pid}_{suffix}"
    if not os.path.exists(os.path.join(out, "patch.diff")) or not os.path.exists(os.path.join(out, "demo.py")):
        return pid, "no delivery"
    if os.path.exists(f"/verif/seeded/{name}/meta.json"):
        return pid, "already filed"
    try:
        meta = json.load(open(os.path.join(out, "meta.json")))
    except Exception:
        meta = {}
    prop = meta.get("property", pid)
    det = seed_eval.detect(os.path.join(out, "patch.diff"))
    fired = sorted(p for p, (rc, _) in det.items() if rc == 1)
    errs = sorted(p for p, (rc, _) in det.items() if rc == 2)
    own = det.get(prop, (0, []))
    initially = "yes" if own[0] == 1 else "no"
    note = f"wave {suffix}: on receipt own check rc={own[0]} ({'; '.join(f[:90] for f in own[1][:3])}); fired={fired}; exit2={errs}"
    r = subprocess.run(["/verif/tools/seed_keep.py", out, name, initially, note], capture_output=True, text=True)
    open(os.path.join(root, f"{pid}.intake.txt"), "w").write(note + "\n\n" + r.stdout + r.stderr)
    ok = r.returncode == 0
    return pid, f"{'FILED' if ok else 'REJECTED'} own={'caught' if initially == 'yes' else 'MISSED rc=' + str(own[0])} fired={fired} exit2={errs}" + ("" if ok else " :: " + (r.stderr.strip().splitlines() or ['?'])[-1][:200])


pids = only or sorted(d for d in os.listdir(root) if os.path.isdir(os.path.join(root, d)))
with ThreadPoolExecutor(3) as ex:
    for pid, msg in ex.map(one, pids):
        print(pid, msg, flush=True)
