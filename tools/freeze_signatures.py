#!/venv/bin/python
"""Pin the parameter defaults of every function in the files the properties are anchored in
(bvstatic/data/signatures.json).  Run on the confirmed tree; never at check time."""
import ast, json, sys
sys.path.insert(0, "/verif")
from bvstatic.model import Repo
from bvstatic.rules.common import anchored_files, defaults_of
repo = Repo("/repo")
out = {}
files = sorted({f for fs in anchored_files().values() for f in fs})
for rel in files:
    m = repo.modules.get(rel)
    if m is None:
        continue
    d = {}
    for f in m.all_funcs():
        dv = defaults_of(f.node)
        if dv:
            d[f.qualname + (":setter" if f.is_setter else "")] = dv
    out[rel] = d
json.dump(out, open("/verif/bvstatic/data/signatures.json", "w"), indent=0, sort_keys=True, ensure_ascii=False)
print("signatures:", sum(len(v) for v in out.values()), "functions with defaults in", len(out), "files")
