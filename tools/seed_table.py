#!/venv/bin/python
"""seed_table.py [--refresh] : (re)run every quick check against every filed seed (scratch copies), update
`checks_that_fire_now` in the metas, and rewrite the table of DESIGN.md §8.6 between its markers."""
import json, os, re, sys
sys.path.insert(0, "/verif/tools")
import seed_eval
from concurrent.futures import ThreadPoolExecutor

ROOT = "/verif/seeded"


def refresh(name):
    d = os.path.join(ROOT, name)
    meta = json.load(open(os.path.join(d, "meta.json")))
    det = seed_eval.detect(os.path.join(d, "patch.diff"))
    meta["checks_that_fire_now"] = {p: [f.split(" at ")[0].replace("FAIL ", "") for f in fails[:3]] for p, (rc, fails) in sorted(det.items()) if rc == 1}
    meta["analysis_errors"] = {p: fails for p, (rc, fails) in sorted(det.items()) if rc == 2}
    json.dump(meta, open(os.path.join(d, "meta.json"), "w"), indent=1, ensure_ascii=False)
    return name


def row(name):
    meta = json.load(open(os.path.join(ROOT, name, "meta.json")))
    prop = meta["property"]
    fires = []
    for p, fl in sorted(meta.get("checks_that_fire_now", {}).items()):
        rules = []
        for f in fl:
            m = re.search(r"rule=(\S+)", f)
            if m and m.group(1) not in rules:
                rules.append(m.group(1))
        fires.append(f"{p} {'/'.join(rules)}")
    own = prop in meta.get("checks_that_fire_now", {})
    summ = (meta.get("summary") or "").replace("|", "/").replace("\n", " ")[:170]
    note = (meta.get("note") or "").replace("|", "/").replace("\n", " ")
    own_now = "" if own else " **NOT CAUGHT BY OWN CHECK**"
    return f"| {name} | {summ} | {'caught' if meta.get('detected_when_received') else '**missed / wrong check**'} | {'; '.join(fires)}{own_now} | {note} |", own, bool(meta.get("detected_when_received"))


def main():
    names = sorted(n for n in os.listdir(ROOT) if os.path.exists(os.path.join(ROOT, n, "meta.json")))
    if "--refresh" in sys.argv:
        with ThreadPoolExecutor(3) as ex:
            for n in ex.map(refresh, names):
                print("refreshed", n, flush=True)
    rows, own_n, rec_n = [], 0, 0
    for n in names:
        r, own, rec = row(n)
        rows.append(r)
        own_n += own
        rec_n += rec
    table = "| seed | what it does (first sentence of the agent's summary) | on receipt | fires now | note |\n|------|------|------|------|------|\n" + "\n".join(rows)
    s = open("/verif/DESIGN.md").read()
    a, b = "<!-- seed-table-begin -->", "<!-- seed-table-end -->"
    if a in s:
        s = s[:s.index(a) + len(a)] + "\n" + table + "\n" + s[s.index(b):]
        open("/verif/DESIGN.md", "w").write(s)
    print(f"{len(names)} seeds, {rec_n} caught on receipt by the own check, {own_n} caught now by the own check")


if __name__ == "__main__":
    main()
