#!/venv/bin/python
"""benign_in.py <wave dir> [Cxx ...] : take in the 'benign behaviour change' deliveries (tools/benign_prompts.py).
For every <dir>/Cxx/_out/benign_N.diff: check that it applies and that the agent's property test still passes with it (on a
scratch copy; the suite claim of the agent is not re-run), copy it to /verif/benign/Cxx/patch_N.diff (+ proptest.py,
meta.json), then run every quick check against the patched copy and print which alarm."""
import glob, json, os, shutil, subprocess, sys, tempfile
sys.path.insert(0, "/verif/tools")
import seed_eval

root = sys.argv[1]
only = sys.argv[2:]
PY = "/venv/bin/python"
pids = only or sorted(d for d in os.listdir(root) if os.path.isdir(os.path.join(root, d)))
tot = own = any_ = 0
for pid in pids:
    out = os.path.join(root, pid, "_out")
    patches = sorted(glob.glob(os.path.join(out, "benign_*.diff")))
    if not patches:
        print(pid, "no delivery"); continue
    dst = f"/verif/benign/{pid}"
    os.makedirs(dst, exist_ok=True)
    for f in ("proptest.py", "meta.json"):
        if os.path.exists(os.path.join(out, f)):
            shutil.copy(os.path.join(out, f), dst)
    for p in patches:
        n = os.path.basename(p).split("_")[1].split(".")[0]
        d = tempfile.mkdtemp(prefix="bvben_")
        try:
            shutil.copytree("/repo/beyond", os.path.join(d, "beyond"))
            r = subprocess.run(["git", "apply", p], cwd=d, capture_output=True, text=True)
            if r.returncode:
                print(f"{pid}/benign_{n}: DOES NOT APPLY"); continue
            pt = os.path.join(out, "proptest.py")
            ok = None
            if os.path.exists(pt):
                env = dict(os.environ, PYTHONPATH=d, PYTHONDONTWRITEBYTECODE="1")
                try:
                    ok = subprocess.run([PY, pt], cwd=d, env=env, capture_output=True, text=True, timeout=900).returncode == 0
                except subprocess.TimeoutExpired:
                    ok = None
            shutil.copy(p, os.path.join(dst, f"patch_{n}.diff"))
        finally:
            shutil.rmtree(d, ignore_errors=True)
        det = seed_eval.detect(p)
        fired = sorted(q for q, (rc, _) in det.items() if rc == 1)
        errs = sorted(q for q, (rc, _) in det.items() if rc == 2)
        tot += 1
        own += pid in fired
        any_ += bool(fired or errs)
        rules = sorted({f.split("rule=")[1].split()[0] for f in det.get(pid, (0, []))[1] if "rule=" in f})
        print(f"{pid}/benign_{n}: proptest={'pass' if ok else 'FAIL' if ok is False else '?'} own={'ALARM ' + '/'.join(rules) if pid in fired else 'silent'} all={fired} exit2={errs}", flush=True)
print(f"{tot} benign commits: own check alarms on {own}, some check alarms on {any_}")
